"""A5: effect discovery. Guest-memory primitives by callee, pointer provenance classification,
closure-environment lifting, pure-getter inlining, interprocedural propagation through raw helpers."""
import re

from .mir import deep_strip, tstr, strip_generics, canon, subterms, is_call, map_children, LEAF_TAGS

ACCESSORS = ("volatile_memory::VolatileSlice", "volatile_memory::VolatileRef", "volatile_memory::VolatileArrayRef")
REGIONS = ("mmap::unix::MmapRegion", "mmap::xen::MmapRegion")

# (regex over canonical callee, role -> argument index)
PRIMS = [
    (re.compile(r"^(core|std)::ptr::write_volatile$|ptr::mut_ptr::write_volatile$"), {"dst": 0}, "write_volatile"),
    (re.compile(r"^(core|std)::ptr::write_bytes$|ptr::mut_ptr::write_bytes$"), {"dst": 0, "count": 2}, "write"),
    (re.compile(r"^(core|std)::ptr::write(_unaligned)?$|ptr::mut_ptr::write(_unaligned)?$"), {"dst": 0}, "write"),
    (re.compile(r"^(core|std)::ptr::read_volatile$|ptr::(const|mut)_ptr::read_volatile$"), {"src": 0}, "read_volatile"),
    (re.compile(r"^(core|std)::ptr::read(_unaligned)?$|ptr::(const|mut)_ptr::read(_unaligned)?$"), {"src": 0}, "read"),
    (re.compile(r"^(core|std)::(ptr|intrinsics)::copy(_nonoverlapping)?$"), {"src": 0, "dst": 1, "count": 2}, "copy"),
    (re.compile(r"ptr::mut_ptr::copy_from(_nonoverlapping)?$"), {"dst": 0, "src": 1, "count": 2}, "copy"),
    (re.compile(r"ptr::(const|mut)_ptr::copy_to(_nonoverlapping)?$"), {"src": 0, "dst": 1, "count": 2}, "copy"),
    (re.compile(r"^libc::(read|pread|pread64|recv)$"), {"dst": 1, "count": 2}, "sys_read"),
    (re.compile(r"^libc::(write|pwrite|pwrite64|send)$"), {"src": 1, "count": 2}, "sys_write"),
    (re.compile(r"AtomicInteger::store$|sync::atomic::Atomic(::<\w+>|[A-Z]\w*)?::(store|swap|fetch_\w+|compare_exchange\w*)$"), {"dst": 0}, "atomic_store"),
    (re.compile(r"AtomicInteger::load$|sync::atomic::Atomic(::<\w+>|[A-Z]\w*)?::load$"), {"src": 0}, "atomic_load"),
]

PEEL = re.compile(r"ptr::(mut_ptr|const_ptr)::(cast|cast_mut|cast_const|add|offset|sub|byte_add|byte_offset|wrapping_add|wrapping_offset)$|ptr::NonNull::as_ptr$")


def prim_of(callsite):
    c = canon(callsite.target or "")
    for rx, roles, kind in PRIMS:
        if rx.search(c):
            return kind, roles
    return None


def base_of(t):
    """strip refs/derefs"""
    t = deep_strip(t)
    while t[0] in ('ref', 'deref'):
        t = deep_strip(t[1])
    return t


def subst(t, m):
    """replace ('param', i, _) by m[i]; normalise deref(ref(x)) -> x"""
    if not isinstance(t, tuple) or not t:
        return t
    if t[0] == 'param':
        return m.get(t[1], t)
    if t[0] in LEAF_TAGS:
        return t
    r = map_children(t, lambda x: subst(x, m))
    if r[0] == 'deref' and isinstance(r[1], tuple) and r[1][0] == 'ref':
        return r[1][1]
    return r


class Effects:
    def __init__(self, prog):
        self.prog = prog
        self._getter = {}
        self._env = {}

    # ------------------------------------------------------------ getters
    def getter_summary(self, path):
        """if the local body `path` is a pure getter (single path, return term over params), return it"""
        if path in self._getter:
            return self._getter[path]
        self._getter[path] = None
        b = self.prog.by_id.get(path)
        if b is None or b.kind == "Closure":
            return None
        if any(blk["term"]["k"] == "switch" for i, blk in enumerate(b.blocks) if i in b.live_blocks()):
            return None
        rts = b.return_terms()
        if len(rts) != 1:
            return None
        r = deep_strip(rts[0][1])
        # only params / fields / consts / size_of / align_of / casts
        for s in subterms(r):
            if s[0] in ('param', 'field', 'deref', 'ref', 'const', 'sym', 'bin', 'agg'):
                continue
            if s[0] == 'call' and canon(s[1]).split('::')[-1] in ('size_of', 'align_of'):
                continue
            return None
        self._getter[path] = r
        return r

    def deep_getter(self, path, depth=0):
        """like getter_summary, but a getter may be built on other getters and casts (`fn len(&self) { self.mapping.size() as u64 }`):
        the return term with the inner getters expanded, or None. Used only where a rule asks for it (the plain `inline` keeps such
        calls symbolic, which is what most rules match on)."""
        g = self.getter_summary(path)
        if g is not None:
            return g
        b = self.prog.by_id.get(path)
        if b is None or b.kind == "Closure" or depth > 3:
            return None
        if any(blk["term"]["k"] == "switch" for i, blk in enumerate(b.blocks) if i in b.live_blocks()):
            return None
        rts = b.return_terms()
        if len(rts) != 1:
            return None

        def ex(t):
            t = deep_strip(t)
            if not isinstance(t, tuple) or not t:
                return t
            if t[0] == 'call':
                if canon(t[1]).split('::')[-1] in ('size_of', 'align_of'):
                    return t
                g2 = self.deep_getter(t[1], depth + 1) if t[1] in self.prog.by_id else None
                if g2 is None:
                    raise ValueError
                args = tuple(ex(a) for a in t[2])
                return ex(subst(g2, {i + 1: a for i, a in enumerate(args)}))
            if t[0] in ('param', 'const', 'sym'):
                return t
            if t[0] in ('field', 'deref', 'ref', 'bin', 'agg', 'cast'):
                return map_children(t, ex)
            raise ValueError
        try:
            return ex(rts[0][1])
        except ValueError:
            return None

    def inline_deep(self, t, depth=0):
        """inline(t), additionally expanding getters built on getters"""
        t = self.inline(t)
        if depth > 3 or not isinstance(t, tuple) or not t:
            return t
        if t[0] == 'call':
            args = tuple(self.inline_deep(a, depth + 1) for a in t[2])
            g = self.deep_getter(t[1]) if t[1] in self.prog.by_id else None
            if g is None:
                return ('call', t[1], args) + tuple(t[3:])
            return self.inline_deep(subst(g, {i + 1: a for i, a in enumerate(args)}), depth + 1)
        if t[0] in LEAF_TAGS:
            return t
        return map_children(t, lambda x: self.inline_deep(x, depth + 1))

    def inline(self, t, depth=0):
        """inline calls to local pure getters inside term t"""
        t = deep_strip(t)
        if depth > 4 or not isinstance(t, tuple):
            return t
        if t[0] == 'call':
            args = tuple(self.inline(a, depth + 1) for a in t[2])
            g = self.getter_summary(t[1])
            if g is None:
                # trait call that was not resolved: VolatileMemory::len etc. stay symbolic
                return ('call', t[1], args, t[3] if len(t) > 3 else ())
            m = {i + 1: a for i, a in enumerate(args)}
            return self.inline(subst(g, m), depth + 1)
        if t[0] == 'sym' and isinstance(t[1], str) and "::promoted[" in t[1]:
            pb = self.prog.by_id.get(t[1])
            if pb is not None:
                rts = pb.return_terms()
                if len(rts) == 1:
                    return self.inline(('deref', deep_strip(rts[0][1])) if False else deep_strip(rts[0][1]), depth + 1)
            return t
        if t[0] in LEAF_TAGS:
            return t
        r = map_children(t, lambda x: self.inline(x, depth + 1))
        if r[0] == 'deref' and r[1][0] == 'ref':
            return r[1][1]
        return r

    # ------------------------------------------------------------ closures
    def closure_env(self, cb):
        """(parent body, [captured operand terms], position of the closure aggregate) for a closure body"""
        if cb.id in self._env:
            return self._env[cb.id]
        res = None
        # parent = the body whose id is the closure id minus the last ::{closure#n}
        pid = cb.id.rsplit("::{closure", 1)[0]
        parent = self.prog.by_id.get(pid)
        if parent is None:
            # the closure of a novel helper that was inlined into its caller(s) and dropped: it lives in the caller now (the one that
            # holds its aggregate); ambiguous when several callers inlined the helper
            hosts = [x for x in self.prog.bodies if pid in (x.j.get("inlined") or ()) and
                     any(s_["k"] == "assign" and s_["rv"]["k"] == "agg" and s_["rv"].get("agg") == "closure" and s_["rv"].get("def") == cb.id for _p, s_ in x.stmts())]
            if len(hosts) == 1:
                parent = hosts[0]
        if parent is not None:
            for pos, s in parent.stmts():
                if s["k"] == "assign" and s["rv"]["k"] == "agg" and s["rv"].get("agg") == "closure" and s["rv"]["def"] == cb.id:
                    ops = [parent.term(o, pos) for o in s["rv"]["ops"]]
                    res = (parent, ops, pos, s["lhs"]["l"])
                    break
        self._env[cb.id] = res
        return res

    def lift(self, cb, t):
        """rewrite a closure-body term into its parent's term space where it only mentions captures.
        Returns (parent_body, term) or (cb, t) if not liftable."""
        env = self.closure_env(cb)
        if not env:
            return cb, t
        parent, ops, _pos, _l = env

        def rw(x):
            if not isinstance(x, tuple) or not x:
                return x
            # field(param1 | deref(param1), k)
            if x[0] == 'field':
                b = x[1]
                if b[0] == 'deref':
                    b = b[1]
                if b[0] == 'param' and b[1] == 1 and str(x[2]).isdigit() and int(x[2]) < len(ops):
                    return ops[int(x[2])]
            if x[0] in LEAF_TAGS:
                return x
            r = map_children(x, rw)
            if r[0] == 'deref' and r[1][0] == 'ref':
                return r[1][1]
            return r

        lt = rw(deep_strip(t))
        # still mentions closure params (other than captures)? then it is only partially lifted
        return parent, lt

    # ------------------------------------------------------------ provenance
    def origin(self, body, t, depth=0):
        """classify a pointer/reference term. Returns a tuple:
        ('guard', accessor_base_term, mutable, body) | ('addr_field', accessor_base_term, adt, body) |
        ('region_ptr', base, body) | ('param', i, body) | ('host', what) | ('atomic_ref', accessor, offset, body) |
        ('unknown', term)"""
        t = deep_strip(t)
        if depth > 12:
            return ('unknown', t)
        while True:
            if t[0] in ('ref', 'deref'):
                # &*p / *p : keep looking at p (references to places inside guest memory keep provenance)
                t = deep_strip(t[1])
                continue
            if t[0] == 'call' and PEEL.search(canon(t[1])):
                t = deep_strip(t[2][0])
                continue
            if t[0] == 'field' and t[2] in ('0',) and base_of(t[1])[0] == 'call' and is_call(base_of(t[1]), 'PtrGuardMut::as_ptr'):
                t = base_of(t[1])
                continue
            break
        if t[0] == 'call':
            c = canon(t[1])
            if c.endswith("PtrGuardMut::as_ptr") or c.endswith("PtrGuard::as_ptr"):
                g = base_of(t[2][0])
                if g[0] == 'call' and canon(g[1]).split("::")[-1] in ("ptr_guard", "ptr_guard_mut"):
                    acc = base_of(g[2][0])
                    return ('guard', acc, c.endswith("PtrGuardMut::as_ptr"), body)
                if g[0] == 'var' or g[0] == 'param':
                    return ('guard_value', g, c.endswith("PtrGuardMut::as_ptr"), body)
                return ('unknown', t)
            last = c.split("::")[-1]
            if last in ("as_mut_ptr", "as_ptr") and ("slice::" in c or "Vec::" in c or "vec::" in c or "str::" in c):
                return ('host', f"{last} of a Rust slice/Vec: {tstr(t[2][0])}")
            if c.endswith("MmapRegion::as_ptr") or c.endswith("MmapXen::addr") or c.endswith("MmapUnix::addr") or c.endswith("MmapXenTrait::addr"):
                return ('region_ptr', base_of(t[2][0]), body)
            if c.endswith("VolatileMemory::get_atomic_ref"):
                return ('atomic_ref', base_of(t[2][0]), deep_strip(t[2][1]), body)
            if c.endswith("MmapXenSlice::addr"):
                return ('xen_window', base_of(t[2][0]), body)
            return ('unknown', t)
        if t[0] == 'ok':
            inner = deep_strip(t[1])
            if inner[0] == 'call' and canon(inner[1]).endswith("VolatileMemory::get_atomic_ref"):
                return ('atomic_ref', base_of(inner[2][0]), deep_strip(inner[2][1]), body)
            return self.origin(body, inner, depth + 1)
        if t[0] == 'field':
            base = base_of(t[1])
            fname = t[2]
            bty = self._type_of_base(body, base)
            if fname == 'addr' and bty in ACCESSORS:
                return ('addr_field', base, bty, body)
            if fname == 'addr' and bty in REGIONS:
                return ('region_ptr', base, body)
            if fname == 'addr' and bty in ("volatile_memory::PtrGuard", "volatile_memory::PtrGuardMut"):
                return ('guard_field', base, body)
            if fname == 'addr':
                return ('addr_field_other', base, bty, body)
            # closure capture?
            if body.kind == "Closure":
                pb, lt = self.lift(body, t)
                if pb is not body and lt != t:
                    return self.origin(pb, lt, depth + 1)
            return ('unknown', t)
        if t[0] == 'param':
            ty = body.local_ty(t[1])
            if body.kind == "Closure" and t[1] >= 2:
                # closure argument: fed by the combinator that calls the closure
                fed = self.closure_arg_source(body, t[1])
                if fed is not None:
                    pb, ft = fed
                    return self.origin(pb, ft, depth + 1)
            if ty.k == 'ptr':
                return ('param', t[1], body)
            if ty.k == 'ref':
                inner = ty.inner()
                if inner is not None and inner.k in ('slice', 'array', 'prim', 'param'):
                    return ('host', f"Rust reference parameter {t[2]}: {ty.s}")
                return ('param', t[1], body)
            return ('unknown', t)
        if t[0] == 'var':
            # loop pointer: classify its non-self-referential definitions
            outs = []
            for pos, dt in body.var_defs(t[1]):
                if any(s == t for s in subterms(deep_strip(dt))):
                    continue
                outs.append(self.origin(body, dt, depth + 1))
            outs = [o for o in outs if o[0] != 'unknown'] or outs
            if len(outs) >= 1 and all(o[:2] == outs[0][:2] for o in outs):
                return outs[0]
            return ('unknown', t)
        if t[0] == 'cast':
            return self.origin(body, t[2], depth + 1)
        return ('unknown', t)

    def _type_of_base(self, body, base):
        """ADT path of the value a base term denotes (params and simple fields only)"""
        if base[0] == 'param':
            return body.local_ty(base[1]).adt
        if base[0] == 'var':
            return body.local_ty(base[1]).adt
        if base[0] == 'ok':
            inner = deep_strip(base[1])
            while inner[0] == 'ok' or (inner[0] == 'call' and canon(inner[1]).endswith("Try::branch")):
                inner = deep_strip(inner[1] if inner[0] == 'ok' else inner[2][0])
            if inner[0] == 'call':
                return self._ret_adt(inner)
            return None
        if base[0] == 'call':
            return self._ret_adt(base)
        if base[0] == 'field':
            return None
        return None

    _RET = {
        "get_slice": "volatile_memory::VolatileSlice", "subslice": "volatile_memory::VolatileSlice", "offset": "volatile_memory::VolatileSlice",
        "to_slice": "volatile_memory::VolatileSlice", "as_volatile_slice": "volatile_memory::VolatileSlice",
        "get_ref": "volatile_memory::VolatileRef", "ref_at": "volatile_memory::VolatileRef",
        "get_array_ref": "volatile_memory::VolatileArrayRef",
    }

    def _ret_adt(self, call_term):
        c = canon(call_term[1])
        f = self.prog.fns.get(call_term[1])
        if f:
            t = self.prog.ty(f["output"])
            # Result<VolatileSlice,..> -> first adt arg
            if t.adt and t.adt.endswith("result::Result") and t.args():
                return t.args()[0].adt
            return t.adt
        return self._RET.get(c.split("::")[-1])

    def closure_arg_source(self, cb, param_idx):
        """closure passed to Result::map / Option::map / and_then: param #2 is the Ok/Some payload of the receiver"""
        env = self.closure_env(cb)
        if not env:
            return None
        parent, ops, pos, clo_local = env
        def payload_source(recv):
            # the success payload of x.filter(p) / x.ok() / x.ok_or(e) / x.map_err(f) is the success payload of x
            recv = deep_strip(recv)
            while recv[0] == 'call' and recv[2] and canon(recv[1]).split("::")[-2:] in (["Option", "filter"], ["Result", "ok"], ["Option", "ok_or"], ["Option", "ok_or_else"], ["Result", "map_err"]):
                recv = deep_strip(recv[2][0])
            return recv
        for c in parent.calls():
            cn = canon(c.target or "")
            if cn.split("::")[-1] in ("map", "and_then", "map_or", "map_or_else", "filter", "is_ok_and", "is_some_and") and ("Result::" in cn or "Option::" in cn):
                for i, a in enumerate(c.t["args"]):
                    if a["k"] in ("move", "copy") and a["pl"]["l"] == clo_local and "p" not in a["pl"] and i >= 1:
                        recv = payload_source(c.arg(0))
                        if param_idx == 2:
                            if cn.split("::")[-1] == "filter":
                                return parent, ('ref', ('ok', recv))      # the predicate receives a reference to the payload
                            return parent, ('ok', recv)
            if "Iterator::" in cn and cn.split("::")[-1] in ITER_CLOSURE_STAGES:
                for i, a in enumerate(c.t["args"]):
                    if a["k"] in ("move", "copy") and a["pl"]["l"] == clo_local and "p" not in a["pl"] and i >= 1:
                        it = iter_item(c.arg(0))
                        if it is not None and param_idx == 2:
                            by_ref = cn.split("::")[-1] in ("take_while", "skip_while", "filter", "find", "position", "inspect")
                            return parent, (('ref', it) if by_ref and cn.split("::")[-1] != "position" else it)
            if cn.split("::")[-1] in ("map_err", "or_else", "unwrap_or_else") and "Result::" in cn:
                for i, a in enumerate(c.t["args"]):
                    if a["k"] in ("move", "copy") and a["pl"]["l"] == clo_local and "p" not in a["pl"] and i >= 1:
                        recv = deep_strip(c.arg(0))
                        # the failure payload of x.map(f) is the failure payload of x
                        while recv[0] == 'call' and canon(recv[1]).endswith("Result::map") and len(recv[2]) == 2:
                            recv = deep_strip(recv[2][0])
                        if param_idx == 2:
                            return parent, ('vfield', recv, 'Err', 0)
        return None

    def in_parent(self, cb, t, depth=0, tag_own=False):
        """a closure-body term in the term space of the function that defines the closure: captures are replaced by what was
        captured, the closure's own argument by what the combinator feeds it (Ok/Some payload for map/and_then, Err payload for
        map_err). With `tag_own`, arguments that are not fed by a known combinator are written as a symbol `<closure-arg i>` so
        that they cannot be confused with the defining function's parameters. Returns (parent_body, term); unchanged when `cb`
        is not a closure."""
        if cb.kind != "Closure" or depth > 3:
            return cb, t
        if self.closure_env(cb) is None:
            return cb, t
        own = {}

        def tag(x):
            if isinstance(x, tuple) and x and x[0] == 'param' and isinstance(x[1], int) and x[1] >= 2:
                ph = ('sym', f"closure-arg{x[1]}")
                own[ph] = x
                return ph
            if isinstance(x, tuple) and x and x[0] not in LEAF_TAGS:
                return map_children(x, tag)
            return x
        t1 = tag(deep_strip(t))
        pb, lt = self.lift(cb, t1)
        fed = self.closure_arg_source(cb, 2)

        def untag(x):
            if isinstance(x, tuple) and x and x[0] == 'sym' and x in own:
                if fed is not None and own[x][1] == 2:
                    return fed[1]
                return x if tag_own else own[x]
            if isinstance(x, tuple) and x and x[0] not in LEAF_TAGS:
                return map_children(x, untag)
            return x
        lt = untag(lt)

        def norm(x):
            if isinstance(x, tuple) and x and x[0] not in LEAF_TAGS:
                x = map_children(x, norm)
                if x[0] == 'deref' and isinstance(x[1], tuple) and x[1] and x[1][0] == 'ref':
                    return x[1][1]
            return x
        lt = norm(lt)
        return self.in_parent(pb, lt, depth + 1, tag_own) if pb.kind == "Closure" else (pb, lt)


def context_facts(eff, cb):
    """facts that hold on entry to a closure because of where it sits in an iterator chain, in the defining function's terms:
    a closure passed to `.take_while(p)...for_each(f)` / `.filter(p).map(f)` only ever sees items for which p(item) is true"""
    from .mir import rels_of_bool
    env = eff.closure_env(cb)
    if not env:
        return []
    parent, _ops, _pos, clo_local = env
    out = []
    for c in parent.calls():
        cn = canon(c.target or "")
        if cn.split("::")[-1] == "then" and "bool" in cn and len(c.t["args"]) == 2:
            a1 = c.t["args"][1]
            if a1["k"] in ("move", "copy") and a1["pl"]["l"] == clo_local and "p" not in a1["pl"]:
                out.extend(rels_of_bool(deep_strip(c.arg(0)), True))      # c.then(|| ..): the closure runs only when c holds
            continue
        if "Iterator::" not in cn or cn.split("::")[-1] not in ITER_CLOSURE_STAGES:
            continue
        if not any(a["k"] in ("move", "copy") and a["pl"]["l"] == clo_local and "p" not in a["pl"] for a in c.t["args"][1:]):
            continue
        for pclo in _upstream_predicates(c.arg(0)):
            if pclo[0] != 'agg':
                continue
            pb = eff.prog.by_id.get(pclo[1])
            if pb is None:
                continue
            rts = pb.return_terms()
            if len(rts) != 1:
                continue
            _pp, pt = eff.in_parent(pb, rts[0][1])
            out.extend(rels_of_bool(pt, True))
    return out


def item_facts(eff, b, terms):
    """what an iterator chain guarantees about the items it yields, for every `ok(next(CHAIN))` among the given terms: an item that
    comes out of `.take_while(p)` / `.filter(p)` satisfies p(&item) — the `for x in chain` spelling of what context_facts states for
    `chain.for_each(|x| ..)`. Facts are written with the item term itself in the place of the predicate's argument."""
    from .mir import rels_of_bool
    from .outcomes import _apply_closure
    out = []
    seen = set()
    for t in terms:
        for x in subterms(deep_strip(t)):
            if x[0] != 'ok' or x in seen:
                continue
            seen.add(x)
            nx = deep_strip(x[1])
            if not (nx[0] == 'call' and nx[2] and canon(nx[1]).split("::")[-1] == "next"):
                continue
            chain = deep_strip(nx[2][0])
            for _ in range(8):
                while chain[0] in ('ref', 'deref'):
                    chain = deep_strip(chain[1])
                if chain[0] != 'call' or not chain[2]:
                    break
                nm = canon(chain[1]).split("::")[-1]
                if nm in ("take_while", "filter") and len(chain[2]) == 2:
                    clo = deep_strip(chain[2][1])
                    if clo[0] == 'agg':
                        try:
                            r = _apply_closure(eff.prog, eff, clo, ('ref', x))
                        except Exception:
                            r = None
                        if r is not None:
                            out.extend(rels_of_bool(deep_strip(r), True))
                if nm in _ITEM_PRESERVING or nm in ("into_iter", "by_ref"):
                    chain = deep_strip(chain[2][0])
                    continue
                break
    return out


def facts_in_parent(eff, cb, pos):
    """facts_at(pos) of a closure body rewritten into the defining function's terms, plus the context facts of its chain"""
    out = []
    for r in cb.facts_at(pos):
        if r[0] == 'cmp':
            out.append(('cmp', r[1], eff.in_parent(cb, r[2], tag_own=True)[1], eff.in_parent(cb, r[3], tag_own=True)[1]))
        elif r[0] in ('bool', 'discr'):
            out.append((r[0], eff.in_parent(cb, r[1], tag_own=True)[1], r[2]))
    out.extend(context_facts(eff, cb))
    return out


ITER_CLOSURE_STAGES = ("for_each", "map", "filter", "take_while", "skip_while", "all", "any", "find", "position", "inspect")
_ITEM_PRESERVING = ("take_while", "skip_while", "filter", "take", "skip", "rev", "inspect", "into_iter", "by_ref", "fuse", "peekable")


def iter_item(chain):
    """the item an iterator chain yields, as a term `iter_item(source)`: stages that only select items are skipped; a stage that
    transforms items (map, enumerate, zip, ..) is not understood -> None"""
    t = deep_strip(chain)
    while t[0] in ('ref', 'deref'):
        t = deep_strip(t[1])
    if t[0] == 'call':
        last = canon(t[1]).split("::")[-1]
        if last in _ITEM_PRESERVING and t[2]:
            return iter_item(t[2][0])
        if canon(t[1]).endswith("RangeInclusive::new") or last in ("iter", "iter_mut", "windows", "drain"):
            return ('call', 'iter_item', (t,), ())
        return None
    if t[0] == 'agg' and str(t[1]).endswith("ops::Range"):
        return ('call', 'iter_item', (t,), ())
    return None


def _upstream_predicates(chain):
    """closures of the selecting stages take_while(p) / filter(p) found on the way down the chain"""
    out = []
    t = deep_strip(chain)
    while True:
        while t[0] in ('ref', 'deref'):
            t = deep_strip(t[1])
        if t[0] != 'call' or not t[2]:
            return out
        last = canon(t[1]).split("::")[-1]
        if last in ("take_while", "filter") and len(t[2]) == 2:
            out.append(deep_strip(t[2][1]))
        if last in _ITEM_PRESERVING:
            t = deep_strip(t[2][0])
            continue
        return out


def counted_elem(c, kind, roles):
    """pointee type of a counted memory primitive (ptr::copy::<X>(s, d, n) moves n * size_of::<X>() bytes) when X is not
    a one-byte type; None for byte-counted primitives (the count IS the byte count)"""
    if "count" not in roles or kind not in ("copy", "write"):
        return None
    try:
        ca = [x.s for x in c.callee_args()]
    except Exception:
        ca = []
    if not ca:
        return None
    x = ca[0]
    return None if x in ("u8", "i8", "()", "bool", "std::ffi::c_void", "core::ffi::c_void") else x


def write_sites(prog, eff):
    """All guest-write candidates: primitive call sites with a `dst` role, plus raw-pointer deref assignments.
    Yields dict(body, call, kind, dst_term, count_term)"""
    for b in prog.bodies:
        for c in b.calls():
            p = prim_of(c)
            if not p:
                continue
            kind, roles = p
            if "dst" not in roles:
                continue
            yield {"body": b, "call": c, "kind": kind, "dst": c.arg(roles["dst"]),
                   "count": c.arg(roles["count"]) if "count" in roles else None, "pos": c.pos, "ln": c.line,
                   "elem": counted_elem(c, kind, roles)}
        for pos, s in b.stmts():
            if s["k"] == "assign" and "p" in s["lhs"] and s["lhs"]["p"] and s["lhs"]["p"][0] == '*':
                l = s["lhs"]["l"]
                if b.local_ty(l).k == 'ptr':
                    yield {"body": b, "call": None, "kind": "deref_assign", "dst": b.local_term(l, pos, 0), "count": None, "pos": pos, "ln": s["ln"]}


def read_sites(prog, eff):
    for b in prog.bodies:
        for c in b.calls():
            p = prim_of(c)
            if not p:
                continue
            kind, roles = p
            if "src" not in roles:
                continue
            yield {"body": b, "call": c, "kind": kind, "src": c.arg(roles["src"]),
                   "count": c.arg(roles["count"]) if "count" in roles else None, "pos": c.pos, "ln": c.line}
