"""A2: check-then-use. Success facts, and summaries of local functions that act as range checks.
Checks are discovered by what a function's success return implies, not by its name."""
from .mir import deep_strip, tstr, canon, subterms, is_call
from . import effects

TRANSPARENT = ("Try::branch", "Option::ok_or", "Option::ok_or_else", "Result::map_err", "Result::ok", "Into::into", "From::from", "FromResidual::from_residual")


def producer(t):
    """peel success-transparent wrappers: ok(branch(ok_or(x, e))) -> x"""
    t = deep_strip(t)
    while True:
        if t[0] == 'ok':
            t = deep_strip(t[1])
            continue
        if t[0] == 'call' and any(canon(t[1]).endswith(n) for n in TRANSPARENT):
            t = deep_strip(t[2][0])
            continue
        return t


def error_passthrough(t):
    """If the returned term forwards the failure of a fallible value X unchanged — `Err(e) => return Err(e)` (optionally through
    From::from) or `X?` (from_residual of the Break payload of Try::branch(X)) — return X, else None."""
    from .pat import unref
    d = unref(t)
    if d[0] == 'agg' and d[2] == 'Err' and len(d[3]) == 1:
        x = unref(d[3][0])
        while x[0] == 'call' and canon(x[1]).endswith("From::from") and len(x[2]) == 1:
            x = unref(x[2][0])
        if x[0] == 'vfield' and x[2] == 'Err' and x[3] == 0:
            return unref(x[1])
        return None
    if d[0] == 'call' and canon(d[1]).endswith("FromResidual::from_residual") and len(d[2]) == 1:
        x = unref(d[2][0])
        if x[0] == 'vfield' and x[2] == 'Break':
            br = unref(x[1])
            if br[0] == 'call' and canon(br[1]).endswith("Try::branch"):
                return unref(br[2][0])
    return None


def succeeded(body, pos):
    """producer call terms known to have returned Ok/Some/Continue whenever control reaches pos"""
    out = []
    for r in body.facts_at(pos):
        if r[0] != 'discr':
            continue
        t, v = deep_strip(r[1]), r[2]
        if t[0] != 'call':
            continue
        c = canon(t[1])
        if c.endswith("Try::branch") and v == 0:
            out.append(producer(t))
        else:
            # direct match on Option (Some = 1) / Result (Ok = 0): decide by the callee's return type when known
            ret = _ret_kind(body.prog, t)
            if ret == "Option" and v == 1:
                out.append(producer(t))
            elif ret == "Result" and v == 0:
                out.append(producer(t))
    return out


def _ret_kind(prog, call_term):
    f = prog.fns.get(call_term[1])
    if f:
        s = prog.types[f["output"]]["s"]
        if s.startswith("std::option::Option<"):
            return "Option"
        if s.startswith("std::result::Result<"):
            return "Result"
    c = canon(call_term[1])
    if c.split("::")[-1].startswith("checked_") or c.endswith("Option::and_then") or c.endswith("Option::map") or c.endswith("slice::get"):
        return "Option"
    if c.endswith("binary_search_by_key") or c.endswith("try_from") or c.endswith("try_into"):
        return "Result"
    return None


class Summaries:
    """bottom-up summaries of local functions (depth-limited)"""

    def __init__(self, prog, eff):
        self.prog, self.eff = prog, eff
        self._sum = {}
        self._rc = {}

    def checked_sum(self, path):
        """path(a, b) returns Ok/Some(x) only when x = a + b did not overflow -> (ia, ib) param indices, else None"""
        if path in self._sum:
            return self._sum[path]
        self._sum[path] = None
        b = self.prog.by_id.get(path)
        if b is None:
            return None
        oks = []
        # the outcome table rather than the literal returns: `a.checked_add(b).ok_or(E)` / `.map(..)` as the tail expression is the pair
        # {sum exists => Ok(sum), else Err(E)}
        try:
            from . import outcomes as _oc
            rts = [(o[0], o[1]) for o in _oc.outcomes(self.prog, self.eff, b)]
        except Exception:
            rts = b.return_terms()
        for pos, t in rts:
            t = deep_strip(t)
            if t[0] == 'agg' and t[2] in ('Ok', 'Some'):
                oks.append((pos, deep_strip(t[3][0])))
            elif t[0] == 'agg' and t[2] in ('Err', 'None'):
                continue
            elif t[0] == 'call' and canon(t[1]).endswith("from_residual"):
                continue
            else:
                return None
        if not oks:
            return None
        res = None
        for pos, v in oks:
            p = producer(v)
            if p[0] == 'call' and canon(p[1]).endswith("num::checked_add"):
                a, c = deep_strip(p[2][0]), deep_strip(p[2][1])
                if a[0] == 'param' and c[0] == 'param':
                    r = (a[1], c[1])
                    if res not in (None, r):
                        return None
                    res = r
                    continue
            return None
        self._sum[path] = res
        return res

    def sum_term(self, t):
        """t denotes a non-overflowing sum a+b: returns (a, b) terms or None"""
        p = producer(t)
        if p[0] == 'call':
            c = canon(p[1])
            if c.endswith("num::checked_add"):
                return deep_strip(p[2][0]), deep_strip(p[2][1])
            cs = self.checked_sum(p[1]) or self._by_trait(p)
            if cs:
                return deep_strip(p[2][cs[0] - 1]), deep_strip(p[2][cs[1] - 1])
        return None

    def _by_trait(self, p):
        return None

    def range_check(self, path):
        """path(self, a, b) returns Ok only if a + b does not overflow and a + b <= len(self).
        Returns dict(a=i, b=j, strict=op) or None. `op` is the relation guaranteed on the Ok edge (Le expected)."""
        if path in self._rc:
            return self._rc[path]
        self._rc[path] = None
        b = self.prog.by_id.get(path)
        if b is None:
            return None
        res = None
        for pos, t in b.return_terms():
            t = deep_strip(t)
            if not (t[0] == 'agg' and t[2] == 'Ok'):
                continue
            facts = b.facts_at(pos)
            found = None
            for r in facts:
                if r[0] != 'cmp':
                    continue
                _, op, x, y = r
                for (s, l, rel) in ((x, y, op), (y, x, {"Lt": "Gt", "Le": "Ge", "Gt": "Lt", "Ge": "Le", "Eq": "Eq", "Ne": "Ne"}[op])):
                    st = self.sum_term(s)
                    if st and self._is_len_of_self(b, l):
                        a, c = st
                        if a[0] == 'param' and c[0] == 'param':
                            found = {"a": a[1], "b": c[1], "rel": rel}
            if found is None:
                return None
            if res is not None and res != found:
                return None
            res = found
        self._rc[path] = res
        return res

    def _is_len_of_self(self, b, t):
        t = self.eff.inline(t)
        t = deep_strip(t)
        if t[0] == 'call' and canon(t[1]).split("::")[-1] == "len":
            a = effects.base_of(t[2][0])
            return a[0] == 'param' and a[1] == 1
        if t[0] == 'field' and t[2] == 'size':
            a = effects.base_of(t[1])
            return a[0] == 'param' and a[1] == 1
        return False

    def le_check(self, path):
        """path(self, n) returns Ok only if n <= len(self) (e.g. VolatileSlice::offset): returns param index of n"""
        b = self.prog.by_id.get(path)
        if b is None:
            return None
        res = None
        for pos, t in b.return_terms():
            t = deep_strip(t)
            if not (t[0] == 'agg' and t[2] == 'Ok'):
                continue
            ok = None
            for s in succeeded(b, pos):
                if s[0] == 'call' and canon(s[1]).endswith("num::checked_sub"):
                    x, y = deep_strip(s[2][0]), deep_strip(s[2][1])
                    if self._is_len_of_self(b, x) and y[0] == 'param':
                        ok = y[1]
            if ok is None:
                return None
            if res not in (None, ok):
                return None
            res = ok
        return res
